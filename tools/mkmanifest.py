#!/usr/bin/env python3
"""Regenerates MANIFEST.json from the table below (one place to keep it valid)."""
import json
import os

HERE = os.path.dirname(os.path.dirname(os.path.abspath(__file__)))

CHECKS = {
    "C01": dict(
        technique="runtime monitoring: open/save executions on corpus and seeded generated packages; offline checker (independent zipfile+lxml OPC reader) comparing parts, content types, payloads and relationship sets of input and output, and first vs second save byte for byte",
        text="All 67 corpus decks (+2 directory packages) x {path, stream, extracted directory} x {OpcPackage, Package}, and 400 (quick) / 30 000 (thorough) generated packages with adversarial relationship graphs, target spellings, Default/Override/case mixes, same-extension/different-type parts, arbitrary payloads and unreachable extras; every reachable part compared for name, resolved content type, payload (bytes, or C14N-equivalent XML) and relationship set; second save compared member for member. Held on what was generated; the generator's classes are listed in the evidence.",
        note="Trusted: vlib/opcx.py (independent reader, RFC 3986 resolution, OPC content-type resolution), lxml C14N for XML equivalence. Generated inputs are self-checked to satisfy the statement's precondition; rejected ones are counted, never judged.",
        design="§3 C01",
    ),
    "C02": dict(
        technique="runtime monitoring: seeded API histories on the real objects with a save after every step; offline checker (independent zipfile+lxml OPC reader) applying the closure rules to every saved file relative to the opened input; re-open and semantic snapshot comparison",
        text="208 (quick) / 4 000 (thorough) histories of 10 / 30 operations (every relationship-creating/-dropping op of the public API, rejected calls, reads, re-open-and-continue) over the default template, 67 corpus decks and manufactured decks with gapped/out-of-order slide part names; ~2 500 / ~1.2e5 saves each checked for unique members, one resolvable content type per part equal to the in-memory part's type, no dangling internal relationship, no r:* reference without a relationship, office-document relationship to a presentation main part, no unreachable part written, every in-memory part present; each save re-opened and compared with the in-memory presentation through public readers.",
        note="Trusted: vlib/opcx.py; python-pptx's own readers for the re-open comparison (as the statement words it). Histories abandoned on an undocumented exception are counted (by op and exception) and make the run inconclusive above 20%.",
        design="§3 C02, Appendix B",
    ),
    "C03": dict(
        technique="runtime monitoring: seeded API histories on the real objects; libxml2 validation of every changed XML part against the shipped ISO 29500-4 schemas after every operation, judged relative to the part's baseline (online checker)",
        text="256 (quick) / 10 000 (thorough) histories over the default template, all 67 corpus decks and manufactured decks, profile of ~35 XML-mutating operation kinds with arguments across their documented domains incl. out-of-domain values (rejected calls); ~2 000 / ~3e5 part re-validations; new validator messages are violations keyed by operation + location + kind.",
        note="Trusted: libxml2, shipped XSDs, the 40-line markup-compatibility preprocessor (vlib/xsdkit.py). Bounded by the interpreter's repertoire (vlib/ops.py; per-op counts in the evidence). Parts without a shipped schema are skipped and counted.",
        design="§3 C03, Appendix B",
    ),
    "C04": dict(
        technique="runtime monitoring: exhaustive + seeded string workload through the five real text setters against a reference model; structure read by the harness's own XPath; stored text reconstructed from the saved zip by an independent parser; save/re-open cycles",
        text="All 820 strings of length <= 3 over a 9-symbol alphabet plus 1 500 (quick) / 40 000 (thorough) class-biased random strings x 5 assignment levels x 6 prior body states, 1-3 save/re-open cycles; read-back vs model, a:p/a:br/a:r structure, pPr preservation, independent reconstruction from the saved slide XML, schema validity as side monitor.",
        note="Trusted: the 11-line reference model written from the statement; lxml plain parser. Characters outside the XML Char production are outside the domain.",
        design="§3 C04",
    ),
    "C05": dict(
        technique="runtime monitoring: sink registry of 68 string-accepting entry points driven with markup-biased strings on fresh decks; reader read-back, save/re-open, independent well-formedness parse of every saved member, and a differential element-skeleton comparison against the same call with a benign control string (injection detector)",
        text="68 sinks (shape/slide/layout names, picture/placeholder/poster-frame/OLE-icon/movie file names as real files with hostile names, MIME type, OLE progId, run and shape hyperlink addresses, chart series names, category labels at every level, number formats at every level, chart/axis/data-label text, font names, text, all string core properties) x 50 (quick) / 2 500 (thorough) strings over the XML Char production biased to & < > quotes ]]> entity-like and format-string fragments: no exception, same string back (live, after re-open, and as stored), identical element skeleton.",
        note="Trusted: lxml plain parser for the stored value and the skeleton; each case has its own pixel content and a fresh deck (image de-duplication keeps the first file name). C0 controls other than tab/LF/CR are outside this check (C04 owns text escaping).",
        design="§3 C05",
    ),
    "C06": dict(
        technique="runtime monitoring: postcondition wrappers on the real id/name allocators (M-ID) + id model read from the XML by XPath after every operation of addition-only histories over adversarial id states; saved slide part names checked by the independent reader",
        text="400 (quick) / 15 000 (thorough) addition-only histories (slides, every shape kind, nested groups, freeforms, pictures, charts, movies, OLE, notes, hyperlinks, turbo-add on/off) from 8 classes of injected id state (gaps, ids up to 2^31, duplicates, @id on p:cTn, non-numeric @id, slide ids at the bounds): allocator results fresh and in range, no new duplicate shape id, slide ids unique/in range/unchanged, rIds not reassigned while in use, part names unique, handles stable, slide parts named slide1..n in order after .slides access.",
        note="Trusted: XPath over the live XML; wrappers run in the calling thread around the real allocators. The icon picture nested in p:oleObj (id=0 by convention) is outside the id model.",
        design="§3 C06",
    ),
    "C12": dict(
        technique="runtime monitoring: read-only traversals of the real object model in seeded order/repetition with intermediate saves; offline checker comparing the canonical part graph (by relationship path, XML C14N after removing void containers) of the traversed save with a straight open/save",
        text="67 corpus decks + 48 (quick) / 2 000 (thorough) generated decks x 1 / 30 traversal orders x {basic accessors of the statement, + formatting readers}; ~160 distinct accessors exercised (listed in the evidence reach table); any part that appears, disappears or changes beyond the tolerated class is a violation keyed by the first differing element; eight accessors documented as creating content are each applied alone and may cause only their documented effect.",
        note="Trusted: vlib/opcx.py; the tolerated class (void formatting containers, empty text body = absent) is spelled out in props/c12.py and DESIGN.md. ",
        design="§3 C12",
    ),
    "C07": dict(
        technique="runtime monitoring: chart creation and replace_data executions over generated chart data for all 29 writable chart types and the corpus charts; libxml2 validation of each chart part; read API compared with the supplied data and with the harness's own XPath reading of the chart XML; C14N comparison of everything outside the data children across replace_data",
        text="29 chart types x ~14 data shapes (series 0..50, points 0/1/few/hundreds, None holes, string/number/date/multi-level categories with ragged branching, number formats with metacharacters) through add_chart and insert_chart, followed by up to 3 replace_data with differently shaped data (quick 488 / thorough 33 500 cases), plus replace_data on every chart of the corpus decks after formatting was applied: schema validity, names/values/categories exactly as supplied, unique c:idx/c:order, ptCount, nothing but data changed by replace_data.",
        note="Trusted: libxml2 + shipped dml-chart.xsd; vlib/xlsxx.py independent chart-XML reader; float comparison exact after float(str(v)). Known findings: negative axId/crossAx literals, c:smooth in radar series, zero-series replace_data.",
        design="§3 C07",
    ),
    "C08": dict(
        technique="runtime monitoring: offline checker over every saved package: the embedded workbook found through c:externalData is read by an independent .xlsx reader (zipfile + lxml) and every c:f range is compared cell by cell with the cached c:pt values; exhaustive column-reference check against two references",
        text="467 (quick) / 12 000 (thorough) generated charts with series counts crossing the Z/AA, AZ/BA and ZZ/AAA column boundaries, every category depth, XY/bubble series of unequal length, each followed by replace_data (new-part and replace-blob paths) + the corpus charts: 2.6e5 / 4.8e6 cells compared across 3.9e4 / 7.5e5 ranges; _column_reference(n) for all n in 1..16384 against a bijective base-26 model and XlsxWriter's own xl_col_to_name.",
        note="Trusted: vlib/xlsxx.py (workbook reader, A1 range parser), XlsxWriter only as the library under python-pptx. Known findings: labels written with worksheet.write() (formulas, hyperlink conversion), workbook always in the 1900 date system.",
        design="§3 C08",
    ),
    "C09": dict(
        technique="runtime monitoring: table-driven execution of every read/write property of the proxy layer (coverage of the table measured against run-time introspection) with boundary/threshold/None/out-of-domain values, reference model of last values for assignment sequences, save/re-open read-back",
        text="148 table rows covering 116 of 116 non-exempt introspected read/write properties (23 exempt: text -> C04, core properties -> C18, chart data -> C07/C08): each value of the row's grid on a fresh object (read-back within the stated quantum, save/re-open, None semantics, out-of-domain values must raise TypeError/ValueError), random assignment sequences per object with independence groups (interference), and the same on objects found in the 67 corpus decks.",
        note="Trusted: the property table (props/c09_table.py) transcribes the documented domains from docstrings and docs/api; the comparators implement the stated quanta. Whether a rejected call leaves the XML unchanged is not part of this statement: it is recorded as an observation here and its validity aspect is decided by C03 (unit 'rejected').",
        design="§3 C09, Appendix A",
    ),
    "C10": dict(
        technique="runtime monitoring: exhaustive execution of the real inserter/adder/get-or-add/change-to/remove methods over schema-derived sibling contexts; libxml2 validation of a structure-only copy of the shipped XSDs as the postcondition oracle",
        text="All 196 registered tags x their schema types x the 328 child declarations recovered from the real classes at run time; ~3e4 sibling contexts (single other child both orders, all later, all earlier, all permitted per choice alternative, every ordering of two kinds in repeatable mixed content; all pairs in thorough), each self-checked, ~1e5 method executions validated. Exhaustive over the declared context families, not over all sibling multisets.",
        note="Trusted: libxml2 + shipped ISO 29500-4 schemas (structure-only transformation in vlib/xsdkit.py), vlib/ctxgen.py only proposes contexts (each validated before use). Children admitted only through xsd:any are not driven (counted in evidence); hand-written adders that take arguments are called with arguments from a small table keyed by parameter name.",
        design="§3 C10",
    ),
    "C11": dict(
        technique="runtime monitoring: exhaustive execution of the real attribute setters/getters over a boundary-value grid; libxml2 validation of every written lexical form against the attribute's declared XSD simple type; schema-valid lexical forms and all attribute values harvested from the corpus decks read through the real getters",
        text="All 159 (registered tag, declared attribute) pairs recovered from the real classes x ~300 Python values (every range bound used by any simple type +-1, rounding-threshold neighbours via nextafter, inf/nan/-0.0, bool, str, None, Decimal, Fraction, an Integral look-alike; thorough adds 2000 seeded random numbers each): accepted values must be written schema-valid and read back within the type's quantum, rejected ones must raise TypeError/ValueError and leave the element untouched; every lexical alternative libxml2 accepts for the type (enumeration tokens, percent/universal-measure/boolean forms, signed/padded integers) and every value met in the 67 corpus decks must be readable.",
        note="Trusted: libxml2 + shipped schemas for lexical validity; XsdModel for looking up the attribute's declared type; the quantum table in props/c11.py. Reading is only demanded for forms valid for the XSD type the simple-type class is named after (a class narrower than the declared type, e.g. guide names on a:pt/@x, is counted, not judged).",
        design="§3 C11",
    ),
    "C20": dict(
        technique="runtime monitoring: exhaustive enumeration of enum members, preset-shape table and add/save/re-open/read-back executions against the schema enumerations and presetShapeDefinitions.xml shipped in the repository",
        text="Every member and alias of the 16 XML-mapped enumerations (558 member/token pairs): distinct tokens, to_xml/from_xml round trip, token valid for the XSD type of the attribute the enumeration is declared on; all 182 auto-shape types against the standard's preset definitions (prst exists; adjustment names, order, defaults) and each added to a real slide, saved, re-opened and read back; all 73 chart types through add_chart/re-open/chart_type (44 raise the documented NotImplementedError). Exhaustive.",
        note="Trusted: shipped XSDs and presetShapeDefinitions.xml (which itself lacks <upArrow> and defines <upDownArrow> twice: recorded as a known finding), libxml2, the attribute-declaration index shared with C11.",
        design="§3 C20",
    ),
    "C13": dict(
        technique="runtime monitoring: add_slide / notes_slide executions on every corpus layout and on generated placeholder populations; expected values computed by the harness's own XPath over layout/master XML; independent reader on the saved package",
        text="Every layout of every corpus deck (178) + 200 (quick) / 10 000 (thorough) generated placeholder populations (14 types, duplicate/missing idx, vert, sz, with/without xfrm, non-sp placeholders, colliding names) + repeated additions interleaved with edits: ordered placeholder list vs layout minus latent types, unique names/ids, inherited geometry from layout or master by the documented type mapping, last position, slideLayout relationship in the saved file, other slides byte-identical, notes-slide mirroring with and without a notes master.",
        note="Trusted: harness XPath over live XML, vlib/opcx.py, libxml2 (generated populations are validated first; rejected ones are counted). Known finding: partial geometry override zeroes the sibling coordinate.",
        design="§3 C13",
    ),
    "C14": dict(
        technique="runtime monitoring: bounded-exhaustive and seeded merge/split/text/resize histories on real tables against a rectangle-set reference model; flags and counts read by the harness's own XPath after every operation",
        text="All merge/split sequences to depth 2 on every table shape <= 3x3 with every corner-pair orientation (quick; thorough: depth 3, shapes to 4x4 ~3.4e6 sequences) + 300 / 20 000 random 30-op sequences on tables up to 12x12 with text and resizes + all add_table (rows, cols) <= 8x8 x remainders + insert_table + cross-table merges + save/re-open spot checks.",
        note="Trusted: the ~60-line model written from the statement and docs/user/table.rst; XPath readings of gridSpan/rowSpan/hMerge/vMerge.",
        design="§3 C14",
    ),
    "C15": dict(
        technique="runtime monitoring: seeded histories of image additions through every entry point with saves and re-opens; offline checker over each saved package (independent reader + own magic-byte sniffing and DPI header parsers)",
        text="150 (quick) / 6 000 (thorough) histories: PNG/JPEG/GIF/BMP/TIFF recipes (1-64 px, DPI absent/integral/fractional/0/huge/non-square, lying or missing extensions) added by path and stream via add_picture, group add_picture, picture placeholders, movie poster frames and OLE icons, repeated across slides and re-opens (media renumbered with gaps before re-open): one part per distinct bytes, byte-exact, extension/content type of the actual format, default size at the true DPI within 1 EMU, aspect ratio with one dimension given.",
        note="Trusted: the harness's own header parsers for DPI (PNG pHYs, JFIF, BMP, TIFF tags) and vlib/opcx.py; Pillow only as producer of inputs.",
        design="§3 C15",
    ),
    "C16": dict(
        technique="runtime monitoring with fault injection: every listed irregularity injected (zipfile + lxml rewriting) at every applicable location of every corpus deck, singly and in pairs; loaded package compared with what the independent reader computes for the faulted input; saved output checked by the closure rules relative to the faulted input; non-packages checked for the documented exception type",
        text="~2 700 single faults + 500 pairs (quick) / 4 976 locations x 3 forms + 800 pairs per deck (thorough, ~7.5e4 cases) of: dangling relationship target, deleted .rels item, case-flipped Default/Override/part extension, unknown content type on leaf parts, unreferenced extra members, consistently permuted/gapped slide part names, removed core properties, directory form; plus truncated zips of every prefix class, random bytes, empty/text files, missing mandatory members, Word/Excel main parts, each as path and stream.",
        note="Trusted: vlib/opcx.py and props/c01.compare for preservation; the expected exception per input class is the one the statement lists. Fault level: fault_enumeration over the listed irregularities; malformed XML inside a member is not a listed irregularity and is not injected.",
        design="§3 C16",
        category="fault_enumeration",
    ),
    "C17": dict(
        technique="runtime monitoring: exhaustive connector creations/moves over a coordinate grid against a 4-tuple model, seeded nested group builds and freeform pens; geometry read from a:off/a:ext/flip, chOff/chExt and path points by the harness's own XML reads after every step",
        text="Connector: all creations over {-2,0,1,3}^4 x all sequences of <= 2 (quick) / 3 (thorough, ~1e6) single-coordinate moves at two scales + random 50-move sequences at EMU magnitudes; groups: nested builds to depth 4 with every addable member kind, every ancestor checked after every addition; freeforms: random pens (negative/fractional/repeated vertices, several contours, non-uniform scales), bounds from the documented formula +-1 EMU and every point inside its path.",
        note="Trusted: reference models in props/c17.py written from the docstrings; plain find()/get() on the live tree. The instant after adding an empty subgroup is not checked. Known finding: a rejected endpoint assignment leaves the connector modified.",
        design="§3 C17",
    ),
    "C18": dict(
        technique="runtime monitoring: seeded assignment/save/re-open histories over the 15 core properties with a dict-of-last-values model; docProps/core.xml read from each saved zip and validated by libxml2 against the OPC core-properties schema; hand-built W3CDTF documents read through the real getters",
        text="800 (quick) / 32 000 (thorough) histories over strings of length 0..256, datetimes across years 1..9999, revision values, on decks with and without a core-properties part; ~3 000 / 1.2e5 saves each validated (schema + xsi:type rule + element-by-element comparison with an independent reading); every W3CDTF granularity x offsets -14:00..+14:00 read back as UTC; default part creation; corpus core parts read through all getters.",
        note="Trusted: opc-coreProperties.xsd with local Dublin Core stub schemas (/verif/schemas), libxml2, an independent W3CDTF parser in props/c18.py.",
        design="§3 C18",
    ),
    "C19": dict(
        technique="runtime monitoring: bounded-exhaustive differential oracle (OPC/RFC 3986 reference model + urljoin) over PackURI executions",
        text="Every part name over a 6x7 segment alphabet to directory depth 2 (quick) / 3 (thorough) and all ordered pairs (9e4 / 3.4e6 executions of the real relative_ref/from_rel_ref), every accessor, dotted and root-absolute references, compared with an independent reference model and urljoin. Exhaustive within the stated alphabet; says nothing about names outside it.",
        note="Trusted: the 40-line reference model in props/c19.py, urllib.parse.urljoin. idx is only constrained for letters+digits leaf names.",
        design="§3 C19",
    ),
}

# what was added to each check after its first description was written (DESIGN.md §8.3 / §8.4 say why)
ADDED = {
    "C01": "Both arguments in every documented form: packages saved to a stream, a path or a real file object, opened from a path, a directory, an in-memory stream with its cursor at 0 / 4 / the end, or a real file object. Part names with percent-escapes; two sources in different directories spelling equal Targets for different parts. XML parts of non-Office vocabularies (application/xml, custom XML) compared by plain C14N, blanks kept.",
    "C02": "Types of loaded parts are compared with the INPUT's own [Content_Types] at every save; every corpus deck is a start state once per run; a third of the non-default histories start with a save before any access; re-opens use the stream as the save left it; ops include re-assigning the same link / jump, dropping a layout and re-adding its image, same-stream / same-path saves. Relationship ids of loaded decks shifted / gapped / not of the form rId<N> (renumber_rids); manufactured decks whose notes-slide names are assigned by the harness at zip level; blank hyperlink Targets. Manufactured decks also re-spell internal Targets (absolute, './', up-and-down), carry slide ids out of order and grafted parts of unknown kinds. Start decks with a slide that is still related but no longer listed, and with a voided relationship (Target NULL) the slide's XML still uses; references unresolvable in the input are baseline. Slides deleted by the usual recipe (relationship dropped, p:sldId removed) among the operations; manufactured start decks that keep their slides in a folder other than /ppt/slides. A directed unit: loaded decks whose image / media members spell their extension in another case, then one more part of that extension.",
    "C03": "Plus 64 / 3 000 histories on targets saturated with schema-permitted siblings (vlib/instgen.py, profile sat), a sweep assigning every in-domain value of every C09-table row and validating the part, and the documented rejections of that table re-validated. The fill operation reads colours after switching kind and assigns an unusable colour. fit_text (explicit font file) among the text-frame operations when a DejaVu font is installed. Positions given as floats (what Length arithmetic yields) to every add_* call. begin_connect / end_connect with an index no unsignedInt holds (a documented rejection). A directed unit calls every shape-adding entry point (slide and group collections) with float geometry of three kinds and validates what it wrote.",
    "C04": "A seventh prior state holds the assigned string in one run (reads alike, built differently); a third of the assignments go through a proxy object that was assigned through before; non-NFC text among the tokens. The kept proxy is read before it is assigned through. Prior states with an equation (mc:AlternateContent inside a:p) and with a comment inside a:t; the independent reader takes string values and counts the text of children of a:p it has no name for.",
    "C05": "Two links to near-variant addresses on one slide, strings of exactly the documented maximum length, non-NFC / non-NFKC strings, the same image bytes under a second file name (open finding). Strings spelling enumeration member names / values or Python constants. Two links sharing an address, one then cleared or re-pointed. Number format set on the categories before any category exists. The string in the extension position of a movie's file name; every saved package is read as a URI-conforming consumer would (member names against the OPC part-name grammar, Targets resolved as URI references: '#' and '?' are syntax).",
    "C06": "Unit families: every numbered part family (slide, notes slide, chart + workbook, image, media) x 9 irregular numberings of the members a loaded deck has x three further additions; manufactured start decks with dense-permuted / shifted / holed slide names and image indices shared across extensions; the repository's 2 700 tests run under the monitors. Every numeric @id of a part is counted (OLE fallback pictures); every r:id / r:embed / r:link must designate a relationship of the kind the attribute asks for; decks with a blank hyperlink Target. Ids are compared as numbers; id state 'padded' (zero-padded ids). A new relationship id that XML present before the operation already carried. Injected ids include the largest xsd:unsignedInt and the spellings ' 7' / '+7'; the monitors compare ids as the numbers they denote. A directed unit: a slide with one of three image relationships voided in the input, under five numberings, then four kinds of further relationship - no id handed out may be one the XML still mentions.",
    "C07": "Corpus charts are grown by two series and shrunk to one series in alternate rounds (authored c:idx orders, multi-plot charts). REUSE steps: one chart-data object extended and used again; reads through plot proxies kept across replace_data.",
    "C08": "The same chart-data object re-used after it was extended (replace_data and a second add_chart); corpus charts shrunk to one series. Time-zone-aware datetime categories.",
    "C09": "Driver toggles: a kept ancestor whose content is switched off and on (has_data_labels / has_title / has_legend / gridlines; fill.background() for colours) and the child re-accessed from it; None and inf/nan are out of domain for non-boolean properties; identical assignments repeated in sequences; a legend dragged in PowerPoint (edge-mode manual layout) as a fixture. Brightness on a colour that holds its luminance transforms twice. Toggles: the switch re-assigned the value it has must leave the child's properties alone. Rows for the marker and the line of a single point. Plot switches on XY / bubble / line / pie plots; gradient_angle = None; a presentation without p:sldSz (open finding). A getter that fails with an internal error on a corpus object of the row's kind is a violation (it was a skip).",
    "C10": "Online half: 8 / 32 shards of histories in profile sat (targets saturated with minimal or randomly filled-in valid instances, choice members swapped) judged by M-INS (misplaced / excluded-by-sibling / inserted-outside-parent) and by the validated result of every op (out-of-order-after-op, duplicate c:dPt / c:dLbl per c:idx); hand-written adders are called with arguments from a table; change-to and group removers from parents holding every other member of the group; the repository's tests under the monitors. Unit api_removers: the API calls documented to remove or replace (brightness, TextFrame.clear, _Paragraph.clear) on parents where the kind stands several times. A directed unit assigns every boolean switch of the chart API the value it already has (and off-on sequences) on six chart families: the element it stands for occurs at most once afterwards and the part validates as before.",
    "C11": "Own and foreign enumeration members in the grid of enumerated attributes; every rejected value repeated on an attribute that already holds a value and through every parent's generated adder; equivalent lexical forms (percent / thousandths, universal measure / EMU, true / 1) must read alike; the repository's tests under the monitors. Strings in Python's number syntax ('+12345', '0x1234', '1_2345'); unit api_lexical: what each C09 row's assignment wrote is re-spelt in an equivalent schema-valid form (5pt / 0.1in, 50%, true) and read through the API, whatever route the reader takes. Zero-padded numbers among the equivalent forms (index look-ups by XPath string comparison: genuine defect, repaired cdb88002). Unit corpus_lexical: every corpus deck is traversed (C12's read-only traversal, all accessors) as it is and with its whole-number attributes zero-padded / booleans re-spelt; the readings must agree one by one. Unit defaults: every declared attribute default against the schema's default (55) or the standard's prose (text insets); ints beyond the range of a double. Huge finite floats and ints beyond a double in the grid. White space around booleans, enumeration tokens and hexBinary colours, both at the attribute descriptors and through the API; class-required attributes the schema defaults are read in their omitted form.",
    "C12": "Generated pre-states: orphaned jump targets, cell-linked chart titles (guarded reads followed), notes master referred to by notes slides only, half transforms; after saving, prefixes named by markup-compatibility attributes must stay declared and external relationship targets must equal the input's. An external relationship of the deck opened must still be in the straight save; every history with intermediate saves begins with a save before anything was read; eight manufactured decks (irregular names / ids, blank links) are inputs; the part graph expands every route to a shared part and compares which routes share one. Background objects of slides, layouts and masters obtained; pre-state foreign_guides (guides the preset does not define). Generated decks whose plot-level c:dLbls lack some of the optional switches or hold c:delete only.",
    "C13": "Manufactured decks (irregular slide names) as start decks, the saved zip checked for duplicate members and for the slides the deck already had; the layout gains a placeholder between two additions. Gapped relationship ids on the start decks. Step notes-old (notes for a slide the deck already had); the notes slides of the other slides and the saved slide ids are compared. hdr without a:xfrm and sldImg placeholders on layouts are generated again (they had been kept out).",
    "C14": "Cells holding only a field or only a line break; readings through _Cell proxies obtained at an earlier state; the graphic frame resized directly before row / column sizes are set. Frame-size conservation and random operations also on tables made by insert_table().",
    "C15": "One path re-written with other bytes between additions; duck-typed streams not positioned at 0; re-open with JPEG parts typed image/jpg. Images with an EXIF orientation tag; a family of more than ten distinct images. Re-open with image parts relocated outside /ppt/media. OLE objects added without an icon: python-pptx's own template image (an EMF) is judged like any other. File names XML cannot hold (control character, undecodable byte), streams that cannot seek, sizes of 0.",
    "C16": "Template / slide-show main types and the empty-string path are judged. Members differing only in case; parts added after opening a deck with gapped relationship ids, the saved package judged. Non-packages as open real file objects. Dangling targets that name a directory of the package.",
    "C17": "Freeform builders converted or read midway and drawn further; additions to groups with turbo-add switched on. Groups built from members taken out of another group. A group without shapes has no box, and the instant after adding an empty sub-group is checked; members wrapped in mc:AlternateContent count.",
    "C18": "Time-zone-aware datetimes and non-str values for string properties are judged (the latter an open finding). White space around W3CDTF values; core parts that bind the namespaces to other prefixes. Minute granularity judged against the W3C note; start decks with per-language keywords (cp:value children).",
    "C19": "Index leaves (index 0, zero-padded, multi-digit, without extension) in the accessor table; the repository's tests under the monitors. Leaves whose text recurs in a folder name. A leaf that starts with a period (.rels); the reference's own reading of it was corrected.",
    "C20": "A second shape of each type is read after the first one's adjustments were set; a round trip landing on a member of another enumeration is a violation of its own. Module-level aliases judged against the class docstrings that name them. The 711 member names of docs/api/enum/*.rst must exist.",
}

NOT_YET = "check not built yet at this commit (planned in DESIGN.md §3); not claimed"


def main():
    props = [json.loads(l) for l in open(os.path.join(HERE, "properties.jsonl"))]
    checks = []
    na = []
    for p in props:
        pid = p["id"]
        c = CHECKS.get(pid)
        if not c:
            na.append({"property_id": pid, "reason": NOT_YET})
            continue
        checks.append(
            {
                "property_id": pid,
                "quick_cmd": "./check %s --tier quick" % pid,
                "thorough_cmd": "./check %s --tier thorough" % pid,
                "evidence_file": "/verif/evidence/%s.json" % pid,
                "replay_cmd_template": "./check %s --replay {path}" % pid,
                "engine": "vlib",
                "level_claimed": {"category": c.get("category", "exploration"), "text": c["text"] + (" ADDED SINCE: " + ADDED[pid] if pid in ADDED else ""), "design_ref": c["design"]},
                "level_note": c["note"],
                "technique": c["technique"],
            }
        )
    man = {
        "version": 1,
        "setup_cmd": "sh tools/setup.sh",
        "hooks": {
            "guard": "PPTX_VERIF_MONITORS",
            "enable": "No source hooks in /repo: monitors are wrappers installed on the real classes by the harness (vlib/monitors.py) when PPTX_VERIF_MONITORS=1 (set by ./check); python-pptx is an editable install, so each check's fresh interpreter imports /repo/src as it is.",
            "baseline_off_cmd": "cd /repo && /venv/bin/python -m pytest -ra -q -p no:cacheprovider --timeout=900 --continue-on-collection-errors",
            "source_commits": [],
            "add_only": True,
        },
        "engines": [
            {
                "name": "vlib",
                "path": "/verif/vlib",
                "serves_properties": [c["property_id"] for c in checks],
                "kind_free_text": "runtime monitoring harness: sharded workloads on the real code, wrappers/contracts on real methods, independent readers (zipfile + plain lxml + libxml2 XSD validation of the shipped ISO 29500 schemas) and small reference models as oracles; three-valued verdicts",
            }
        ],
        "checks": checks,
        "not_applicable": na,
        "notes": "Exit 0 held / 1 violation / 2 inconclusive. Known findings: /verif/known_findings.json (keyed by mechanism). Mutant self-test: tools/mutcheck.py. Seeded independent breaks: /verif/seeded/.",
    }
    with open(os.path.join(HERE, "MANIFEST.json"), "w") as fh:
        json.dump(man, fh, indent=1)
        fh.write("\n")
    print("claimed:", [c["property_id"] for c in checks])


if __name__ == "__main__":
    main()
