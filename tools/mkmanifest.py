#!/usr/bin/env python3
"""Regenerates MANIFEST.json from the table below (one place to keep it valid)."""
import json
import os

HERE = os.path.dirname(os.path.dirname(os.path.abspath(__file__)))

CHECKS = {
    "C01": dict(
        technique="runtime monitoring: open/save executions on corpus and seeded generated packages; offline checker (independent zipfile+lxml OPC reader) comparing parts, content types, payloads and relationship sets of input and output, and first vs second save byte for byte",
        text="All 67 corpus decks (+2 directory packages) x {path, stream, extracted directory} x {OpcPackage, Package}, and 400 (quick) / 30 000 (thorough) generated packages with adversarial relationship graphs, target spellings, Default/Override/case mixes, same-extension/different-type parts, arbitrary payloads and unreachable extras; every reachable part compared for name, resolved content type, payload (bytes, or C14N-equivalent XML) and relationship set; second save compared member for member. Held on what was generated; the generator's classes are listed in the evidence.",
        note="Trusted: vlib/opcx.py (independent reader, RFC 3986 resolution, OPC content-type resolution), lxml C14N for XML equivalence. Generated inputs are self-checked to satisfy the statement's precondition; rejected ones are counted, never judged.",
        design="§3 C01",
    ),
    "C10": dict(
        technique="runtime monitoring: exhaustive execution of the real inserter/adder/get-or-add/change-to/remove methods over schema-derived sibling contexts; libxml2 validation of a structure-only copy of the shipped XSDs as the postcondition oracle",
        text="All 196 registered tags x their schema types x the 328 child declarations recovered from the real classes at run time; ~3e4 sibling contexts (single other child both orders, all later, all earlier, all permitted per choice alternative, every ordering of two kinds in repeatable mixed content; all pairs in thorough), each self-checked, ~1e5 method executions validated. Exhaustive over the declared context families, not over all sibling multisets.",
        note="Trusted: libxml2 + shipped ISO 29500-4 schemas (structure-only transformation in vlib/xsdkit.py), vlib/ctxgen.py only proposes contexts (each validated before use). Public add_x methods with required arguments and children admitted only through xsd:any are not driven (counted in evidence).",
        design="§3 C10",
    ),
    "C11": dict(
        technique="runtime monitoring: exhaustive execution of the real attribute setters/getters over a boundary-value grid; libxml2 validation of every written lexical form against the attribute's declared XSD simple type; schema-valid lexical forms and all attribute values harvested from the corpus decks read through the real getters",
        text="All 159 (registered tag, declared attribute) pairs recovered from the real classes x ~300 Python values (every range bound used by any simple type +-1, rounding-threshold neighbours via nextafter, inf/nan/-0.0, bool, str, None, Decimal, Fraction, an Integral look-alike; thorough adds 2000 seeded random numbers each): accepted values must be written schema-valid and read back within the type's quantum, rejected ones must raise TypeError/ValueError and leave the element untouched; every lexical alternative libxml2 accepts for the type (enumeration tokens, percent/universal-measure/boolean forms, signed/padded integers) and every value met in the 67 corpus decks must be readable.",
        note="Trusted: libxml2 + shipped schemas for lexical validity; XsdModel for looking up the attribute's declared type; the quantum table in props/c11.py. Reading is only demanded for forms valid for the XSD type the simple-type class is named after (a class narrower than the declared type, e.g. guide names on a:pt/@x, is counted, not judged).",
        design="§3 C11",
    ),
    "C20": dict(
        technique="runtime monitoring: exhaustive enumeration of enum members, preset-shape table and add/save/re-open/read-back executions against the schema enumerations and presetShapeDefinitions.xml shipped in the repository",
        text="Every member and alias of the 16 XML-mapped enumerations (558 member/token pairs): distinct tokens, to_xml/from_xml round trip, token valid for the XSD type of the attribute the enumeration is declared on; all 182 auto-shape types against the standard's preset definitions (prst exists; adjustment names, order, defaults) and each added to a real slide, saved, re-opened and read back; all 73 chart types through add_chart/re-open/chart_type (44 raise the documented NotImplementedError). Exhaustive.",
        note="Trusted: shipped XSDs and presetShapeDefinitions.xml (which itself lacks <upArrow> and defines <upDownArrow> twice: recorded as a known finding), libxml2, the attribute-declaration index shared with C11.",
        design="§3 C20",
    ),
    "C19": dict(
        technique="runtime monitoring: bounded-exhaustive differential oracle (OPC/RFC 3986 reference model + urljoin) over PackURI executions",
        text="Every part name over a 6x7 segment alphabet to directory depth 2 (quick) / 3 (thorough) and all ordered pairs (9e4 / 3.4e6 executions of the real relative_ref/from_rel_ref), every accessor, dotted and root-absolute references, compared with an independent reference model and urljoin. Exhaustive within the stated alphabet; says nothing about names outside it.",
        note="Trusted: the 40-line reference model in props/c19.py, urllib.parse.urljoin. idx is only constrained for letters+digits leaf names.",
        design="§3 C19",
    ),
}

NOT_YET = "check not built yet at this commit (planned in DESIGN.md §3); not claimed"


def main():
    props = [json.loads(l) for l in open(os.path.join(HERE, "properties.jsonl"))]
    checks = []
    na = []
    for p in props:
        pid = p["id"]
        c = CHECKS.get(pid)
        if not c:
            na.append({"property_id": pid, "reason": NOT_YET})
            continue
        checks.append(
            {
                "property_id": pid,
                "quick_cmd": "./check %s --tier quick" % pid,
                "thorough_cmd": "./check %s --tier thorough" % pid,
                "evidence_file": "/verif/evidence/%s.json" % pid,
                "replay_cmd_template": "./check %s --replay {path}" % pid,
                "engine": "vlib",
                "level_claimed": {"category": c.get("category", "exploration"), "text": c["text"], "design_ref": c["design"]},
                "level_note": c["note"],
                "technique": c["technique"],
            }
        )
    man = {
        "version": 1,
        "setup_cmd": "sh tools/setup.sh",
        "hooks": {
            "guard": "PPTX_VERIF_MONITORS",
            "enable": "No source hooks in /repo: monitors are wrappers installed on the real classes by the harness (vlib/monitors.py) when PPTX_VERIF_MONITORS=1 (set by ./check); python-pptx is an editable install, so each check's fresh interpreter imports /repo/src as it is.",
            "baseline_off_cmd": "cd /repo && /venv/bin/python -m pytest -ra -q -p no:cacheprovider --timeout=900 --continue-on-collection-errors",
            "source_commits": [],
            "add_only": True,
        },
        "engines": [
            {
                "name": "vlib",
                "path": "/verif/vlib",
                "serves_properties": [c["property_id"] for c in checks],
                "kind_free_text": "runtime monitoring harness: sharded workloads on the real code, wrappers/contracts on real methods, independent readers (zipfile + plain lxml + libxml2 XSD validation of the shipped ISO 29500 schemas) and small reference models as oracles; three-valued verdicts",
            }
        ],
        "checks": checks,
        "not_applicable": na,
        "notes": "Exit 0 held / 1 violation / 2 inconclusive. Known findings: /verif/known_findings.json (keyed by mechanism). Mutant self-test: tools/mutcheck.py. Seeded independent breaks: /verif/seeded/.",
    }
    with open(os.path.join(HERE, "MANIFEST.json"), "w") as fh:
        json.dump(man, fh, indent=1)
        fh.write("\n")
    print("claimed:", [c["property_id"] for c in checks])


if __name__ == "__main__":
    main()
